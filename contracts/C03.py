"""C03 — every tree operation returns a well-formed tree and leaves its inputs untouched.

C03 adds no functional content of its own: for each operation the three clause groups (well-formedness of the result, frame =
inputs untouched, ownership = result in fresh storage) are postconditions / frame obligations of the contracts that own the
operation (C05 sort_tree, C06 to_subtree / get_subtree_impl / propagate_removal, C07 redirect_tree / cat_tree, C12 AffineTransform /
TranslateOrigin, C16 smoother / resampler).  They are re-verified here through DEPENDS, so a change that makes one of those
operations write into its input or hand out shared storage fails under C03 as well.
What C03 owns is the composition: `Transforms.__call__` (any number of member transforms) and `Identity`.
"""
import z3

from pyvc.spec import Registry
from pyvc.values import Obj, Opaque, PList, Sym, fresh, fresh_name, to_z3, zint

DEPENDS = ["C05", "C06", "C07", "C12", "C16"]
BASE = "swcgeom/transforms/base.py"
I, B = z3.IntSort(), z3.BoolSort()
WF = z3.Function("WFtree", I, B)       # ghost: the tree behind a handle is well formed
born = z3.Function("born", I, I)       # ghost: allocation time of the storage behind a handle
stamp = z3.Function("stamp", I, I, I)  # ghost: content version of handle h at time t (changes iff something wrote into it)


class Clock:
    pass


def register(R: Registry):
    def setup(S):
        from swcgeom.transforms.base import Transforms

        G = Obj(Clock, dict(now=Sym(z3.IntVal(0), "int")))
        x0 = S.int("x0")
        S.assume(z3.And(WF(x0.z), born(x0.z) <= 0))

        def step(E, recv, args, kwargs):
            """ASSUMED contract of a member transform = the single-step clauses proved for the library's operations:
            on a well-formed tree it returns a well-formed tree that is either its argument itself (Identity) or lives in storage
            allocated during the call; nothing that existed before the call is written"""
            (x,) = args
            xz = to_z3(x, "int")
            now = to_z3(G.fields["now"], "int")
            y = fresh("int", "tree")
            h = z3.Int(fresh_name("h"))
            E.prove("Transforms.__call__/member/argument-is-a-well-formed-tree", WF(xz), "precondition")
            E.assume(z3.And(WF(y.z), z3.Or(y.z == xz, born(y.z) > now)))
            E.assume(z3.ForAll([h], z3.Implies(born(h) <= now, stamp(h, now + 1) == stamp(h, now))))
            G.fields["now"] = Sym(now + 1, "int")
            E.assumptions.add("assumed step contract of a member transform (what C05/C06/C07/C12/C16 prove per operation): result well formed, "
                              "argument itself or freshly allocated, nothing older written")
            return y

        ts = PList.fresh("ref", name="transforms")
        ts.proto = {"__call__": step}
        S.assume(zint(ts.n) >= 0)
        return dict(self=S.obj(Transforms, transforms=ts), x=x0, G=G)

    def inv(E, v, o):
        x, x0 = to_z3(v["x"], "int"), to_z3(o["x"], "int")
        now = to_z3(v["G"].fields["now"], "int")
        return z3.And(now >= 0, WF(x), z3.Or(x == x0, born(x) > 0), stamp(x0, now) == stamp(x0, 0))

    def post(which):
        def f(E, v, o):
            r, x0 = to_z3(v["result"], "int"), to_z3(o["x"], "int")
            now = to_z3(v["G"].fields["now"], "int")
            if which == "result-is-well-formed":
                return WF(r)
            if which == "result-is-the-input-itself-or-shares-no-storage-with-it":
                return z3.Or(r == x0, born(r) > born(x0))
            return stamp(x0, now) == stamp(x0, 0)

        return (which, f)

    R.add(f"{BASE}:Transforms.__call__", prop="C03", setup=setup,
          ensures=[post("result-is-well-formed"), post("result-is-the-input-itself-or-shares-no-storage-with-it"), post("input-untouched")],
          loops={0: dict(invariant=[("well-formed-fresh-or-input-and-input-untouched", inv)], modifies=["G"])},
          notes="pipelines of ANY length; member transforms are abstract and satisfy the single-step contract")

    R.add(f"{BASE}:Identity.__call__", prop="C03", pure_inline=True,
          setup=lambda S: dict(self=S.obj(__import__("swcgeom.transforms.base", fromlist=["x"]).Identity), x=S.int("x")),
          ensures=[("returns-its-argument-itself", lambda E, v, o: to_z3(v["result"], "int") == to_z3(o["x"], "int"))])
